#!/usr/bin/env python3
"""Regenerates /verif/MANIFEST.json from the claims table below."""
import json, os
ROOT = os.path.dirname(os.path.dirname(os.path.abspath(__file__)))
props = [json.loads(l) for l in open(os.path.join(ROOT, "properties.jsonl"))]

CLAIMS = {
 "C20": dict(category="proof", ref="5.20", technique="Coq proof (Flocq real-number reading) + executable-model correspondence",
   text="Machine-checked iff-theorems (Coq) over all binary64/int64 values: each constructor model accepts exactly the documented domain (NaN rejected). The models are executable; the extracted OCaml is compared with the real constructors on boundary-exhaustive and seeded random inputs on every run, and every implementation answer is also judged against the documented domain.",
   note="Model: coq/theories/Pure/Config.v, Retry.v (hand-written). Tie: differential run against /repo (harness/cmd/pure vs extracted OCaml). Real-number reading via Flocq B2R: standard-library classical-reals axioms. Error message texts not modelled."),
 "C05": dict(category="proof", ref="5.5", technique="Coq proof + executable-model correspondence",
   text="Coq theorems for every parameter, attempt number and random-source outcome: fixed, random range, limit, jitter pass-through / band / never-negative / saturation, stop-stays-stop, exponential value and upper clamp. The float facts (ordering of the two saturated jitter products, exponential never below initial for Pow > 1, monotone in the Pow oracle) are proved through Flocq's real-number semantics (Properties/C05Float.v). Whole layer stacks (C05_stack_envelope, C05_stack_stop_iff, by induction over any nesting of jitter and limit layers the builder accepts): the call returns, the result is -1 exactly when a limit layer has been reached and otherwise lies in [0, MaxInt64].",
   note="Model: Pure/Retry.v (hand-written; random source = explicit word stream; math.Pow = oracle value supplied by the harness from Go). Tie: differential run against /repo with a deterministic fastrand stub. Axiom-free."),
 "C18": dict(category="proof", ref="5.18", technique="Coq proof + executable-model correspondence",
   text="Coq theorems for all byte strings: the parser model never slices/indexes out of range (no panic), accepts exactly key=fields with documented defaults and decimal-int64 / float fields, returns exactly the direct constructor's value, rejects everything else with an error; layers fold in insertion order. All builder call sequences: the BackoffBuilder is modelled as a state machine (Pure/Builder.v) and after ANY sequence of BaseBackoffSpec / BaseBackoff / WithLimit / WithJitter / WithJitterBound / Build calls a Build returns what the calls so far determine (last explicit base, else the LAST specification, layers in order: C18_builder_call_sequences), building again gives the same, no sequence panics. Model compared with the real builder on grammar-generated, mutated and raw-byte strings and on random builder call sequences each run.",
   note="Model: Pure/Spec.v (hand-written; strconv.ParseInt modelled exactly and diffed separately; strconv.ParseFloat an oracle). Result structure read from the Go objects by reflection. Axiom-free."),
}

import sys
sys.path.insert(0, ROOT)
from vcheck import tier1
for pid, (ref, text, note) in tier1.CLAIMS.items():
    if os.path.exists(os.path.join(ROOT, "coq", "theories", "Properties", pid + ".v")):
        CLAIMS[pid] = dict(category="proof", ref=ref, text=text, note=note,
                           technique=("Coq-checked access discipline over a table regenerated from the Go sources + -race stress search" if pid == "C14" else
                                      "Coq proof over a hand-written step machine + lockstep correspondence with the real code under a controlled scheduler"))

def main():
    m = {"version": 1, "setup_cmd": "./setup.sh",
         "hooks": {"guard": "verif",
                   "enable": "no hook file is compiled into garr and /repo is never modified: the checks copy the current working tree to a scratch directory under /verif/build, redirect sync/atomic, sync (for worker-pool also channels, select, go, context, time) to the cooperative scheduler of /verif/shim by import / syntax rewriting, and add small read-only accessor files (zz_verif_export.go: table limit, pre-grown table, pool counters, NumCPU, the configuration a breaker holds, bulk events into a window bucket) to that copy only; the driver binaries and the Tier-2 harness are built with Go's coverage instrumentation (go build -cover) to record which blocks the model-validated runs executed; the Tier-2 harness reads unexported fields by reflection",
                   "baseline_off_cmd": "cd /repo && GOFLAGS=-mod=mod GOPROXY=off GOSUMDB=off go test -vet=off -count=1 -timeout 25m ./...",
                   "source_commits": [], "add_only": True},
         "engines": [{"name": "check", "path": "check", "serves_properties": sorted(CLAIMS),
                      "kind_free_text": "Coq 8.16.1 proofs over hand-written executable models + model/implementation correspondence (extracted OCaml vs Go harness, sequential scripts and controlled schedules)"}],
         "checks": [], "notes": "see DESIGN.md; genuine defects repaired in /repo by fix: commits are listed in known-findings.txt (fixed: entries, none open); seeded/ holds 188 seeded changes (nine rounds) with demonstrations and seeded/MATRIX.txt what the quick checks report for each", "not_applicable": []}
    for p in props:
        i = p["id"]
        if i in CLAIMS:
            c = CLAIMS[i]
            m["checks"].append({"property_id": i, "quick_cmd": "./check %s --tier quick" % i,
                                "thorough_cmd": "./check %s --tier thorough" % i,
                                "evidence_file": "evidence/%s.json" % i,
                                "replay_cmd_template": "./check %s --replay {path}" % i, "engine": "check",
                                "level_claimed": {"category": c["category"], "text": c["text"], "design_ref": c["ref"]},
                                "level_note": c["note"], "technique": c["technique"]})
        else:
            m["not_applicable"].append({"property_id": i, "reason": "not claimed yet: the check for this property is still under construction in this build (machine-checked proof is applicable; see DESIGN.md)"})
    json.dump(m, open(os.path.join(ROOT, "MANIFEST.json"), "w"), indent=1)

if __name__ == "__main__":
    main()
