#!/usr/bin/env python3
"""Builds corpus/<driver>.jsonl: a small set of scenarios (taken from the seed-0 quick scenario sets of all properties of
the driver, plus corpus/extra_<driver>.jsonl if present) that together execute every block of the package under test that
those sets execute.  Greedy set cover, cheapest scenarios first.  Offline tool: the checks only READ the corpus (and
re-measure coverage on the current tree on every run).   usage: mkcorpus.py [driver ...]"""
import json, os, shutil, subprocess, sys
from concurrent.futures import ThreadPoolExecutor
sys.path.insert(0, os.path.dirname(os.path.dirname(os.path.abspath(__file__))))
from vcheck import common as C, conc, cover, queue, adder, breaker, pool

GENS = {
    "queue": [("C01", queue.gen_c01), ("C07", queue.gen_c07), ("C13", queue.gen_c13), ("C15", queue.gen_c15), ("C19", queue.gen_c19_queue)],
    "adder": [("C02", adder.gen_c02), ("C09", adder.gen_c09), ("C16", adder.gen_c16), ("C19", adder.gen_c19_adder)],
    "breaker": [("C03", breaker.gen_c03), ("C06", breaker.gen_c06), ("C10", breaker.gen_c10)],
    "pool": [("C04", pool.gen_c04), ("C08", pool.gen_c08), ("C11", pool.gen_c11), ("C12", pool.gen_c12), ("C17", pool.gen_c17)],
}

def cost(s):
    m = s.mode.split()
    runs = {"dfs": lambda: int(m[2]), "dfsw": lambda: int(m[2]), "rand": lambda: int(m[1]), "pct": lambda: int(m[1]), "solo": lambda: int(m[1]),
            "freeze": lambda: int(m[1]) * 20, "replay": lambda: 1}.get(m[0], lambda: 50)()
    return runs * (3 + sum(len(t) for t in s.threads) + len(s.prefill))

def covered(exe, scns, tag, root):
    d = os.path.join("/tmp", "mkcorpus_%s" % tag)
    shutil.rmtree(d, ignore_errors=True)
    os.makedirs(d)
    subprocess.run([exe], input="".join(s.text() for s in scns), text=True, stdout=subprocess.DEVNULL, stderr=subprocess.DEVNULL,
                   env=dict(os.environ, GOCOVERDIR=d), timeout=1200)
    blocks, err = cover.textfmt(d, root)
    shutil.rmtree(d, ignore_errors=True)
    return {k for k, h in (blocks or {}).items() if h}

def main(drivers):
    for drv in drivers:
        ok, exe, out = conc.build_driver(drv)
        assert ok, out
        cands = []
        extra = os.path.join(C.ROOT, "corpus", "extra_%s.jsonl" % drv)
        if os.path.exists(extra):
            for l in open(extra):
                if l.strip():
                    d = json.loads(l)
                    cands.append(conc.Scn(d["id"], d["kind"], d["prefill"], d["threads"], d["mode"], d.get("opts") or {}))
        for prop, gen in GENS[drv]:
            for s in gen("quick", conc.rng_for(prop, 0)):
                s.sid = prop + "_" + s.sid
                cands.append(s)
        cands.sort(key=cost)
        pkg = conc.PKG_OF[drv] + "/"
        chunk = 40
        chunks = [cands[i:i + chunk] for i in range(0, len(cands), chunk)]
        with ThreadPoolExecutor(16) as ex:
            ccov = list(ex.map(lambda a: covered(exe, a[1], "%s_c%d" % (drv, a[0]), conc.INST), enumerate(chunks)))
        total = set().union(*ccov)
        total = {k for k in total if k[0].startswith(pkg) and "zz_verif" not in k[0]}
        # greedy over chunks (in cost order), then over the scenarios of the chosen chunks
        need, chosen = set(total), []
        for i, cv in enumerate(ccov):
            if need & cv:
                chosen.append(i)
                need -= cv
        pool_s = [s for i in chosen for s in chunks[i]]
        with ThreadPoolExecutor(16) as ex:
            scov = list(ex.map(lambda a: covered(exe, [a[1]], "%s_s%d" % (drv, a[0]), conc.INST), enumerate(pool_s)))
        need, picked = set(total), []
        while need:
            best, gain = None, 0.0
            for i, s in enumerate(pool_s):
                g = len(need & scov[i])
                if g and g / (cost(s) + 50.0) > gain:
                    best, gain = i, g / (cost(s) + 50.0)
            if best is None:
                break
            picked.append(pool_s[best])
            need -= scov[best]
        os.makedirs(os.path.join(C.ROOT, "corpus"), exist_ok=True)
        with open(os.path.join(C.ROOT, "corpus", drv + ".jsonl"), "w") as f:
            for s in picked:
                f.write(json.dumps(s.describe()) + "\n")
        print("%s: %d candidates, %d blocks executed, corpus of %d scenarios (cost %d), %d blocks left out" %
              (drv, len(cands), len(total), len(picked), sum(cost(s) for s in picked), len(need)))

if __name__ == "__main__":
    main(sys.argv[1:] or list(GENS))
