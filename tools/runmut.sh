#!/bin/sh
# usage: runmut.sh <mutant-dir-name> <prop>...  : apply seeded mutant to /repo, run the quick checks, revert.
m=$1; shift
cd /verif
git -C /repo apply /verif/seeded/$m/patch.diff || exit 2
for p in "$@"; do
  out=$(./check $p --tier quick 2>/dev/null); rc=$?
  echo "$m $p rc=$rc $(echo "$out" | grep -E 'VIOLATION|KNOWN' | head -3 | tr '\n' ' ')"
done
git -C /repo checkout -- .
