// accesstab extracts, from the current sources of the garr module, the table of
// accesses to struct fields of the library's own types and of mutating method
// calls on sync / sync/atomic objects, and prints it as a Coq list
// (Gen/AccessTable.v).  The discipline checker (coq/theories/Race/Discipline.v)
// then decides by computation whether every access obeys the protection class
// declared for its location.
//
// access kinds: atomic (the field's address flows into a sync/atomic function),
// init (composite literal field), write (assignment / inc-dec / address taken
// otherwise), read (anything else), sync:<Method> (method call on a field or
// element whose type comes from sync or sync/atomic).
package main

import (
	"fmt"
	"go/ast"
	"go/token"
	"go/types"
	"os"
	"sort"
	"strings"

	"golang.org/x/tools/go/packages"
)

type acc struct{ pkg, typ, field, fn, kind string }

func main() {
	dir := os.Args[1]
	cfg := &packages.Config{Dir: dir, Mode: packages.NeedName | packages.NeedFiles | packages.NeedSyntax | packages.NeedTypes | packages.NeedTypesInfo | packages.NeedImports | packages.NeedDeps, Tests: false}
	pkgs, err := packages.Load(cfg, "./...")
	if err != nil {
		fmt.Fprintln(os.Stderr, err)
		os.Exit(2)
	}
	var out []acc
	for _, p := range pkgs {
		if len(p.Errors) > 0 {
			fmt.Fprintln(os.Stderr, p.Errors)
			os.Exit(2)
		}
		short := p.PkgPath[strings.LastIndex(p.PkgPath, "/")+1:]
		for _, f := range p.Syntax {
			fname := p.Fset.Position(f.Pos()).Filename
			if strings.HasSuffix(fname, "_test.go") {
				continue
			}
			parents := map[ast.Node]ast.Node{}
			var stack []ast.Node
			ast.Inspect(f, func(n ast.Node) bool {
				if n == nil {
					stack = stack[:len(stack)-1]
					return true
				}
				if len(stack) > 0 {
					parents[n] = stack[len(stack)-1]
				}
				stack = append(stack, n)
				return true
			})
			enclosing := func(n ast.Node) string {
				for x := n; x != nil; x = parents[x] {
					if fd, ok := x.(*ast.FuncDecl); ok {
						name := fd.Name.Name
						if fd.Recv != nil && len(fd.Recv.List) > 0 {
							t := fd.Recv.List[0].Type
							if st, ok := t.(*ast.StarExpr); ok {
								t = st.X
							}
							if id, ok := t.(*ast.Ident); ok {
								name = id.Name + "." + name
							}
						}
						return name
					}
				}
				return "<init>"
			}
			isAtomicCall := func(c *ast.CallExpr) bool {
				if se, ok := c.Fun.(*ast.SelectorExpr); ok {
					if id, ok := se.X.(*ast.Ident); ok {
						if pn, ok := p.TypesInfo.Uses[id].(*types.PkgName); ok {
							return pn.Imported().Path() == "sync/atomic"
						}
					}
				}
				return false
			}
			syncType := func(t types.Type) bool {
				if pt, ok := t.(*types.Pointer); ok {
					t = pt.Elem()
				}
				if nt, ok := t.(*types.Named); ok && nt.Obj().Pkg() != nil {
					pp := nt.Obj().Pkg().Path()
					return pp == "sync" || pp == "sync/atomic"
				}
				return false
			}
			// classify an access by its context: walk up through &, parens, conversions, index expressions
			classify := func(start ast.Node) string {
				kind := "read"
				var cur ast.Node = start
				addr := false
				for {
					par := parents[cur]
					switch pp := par.(type) {
					case *ast.ParenExpr:
						cur = pp
						continue
					case *ast.IndexExpr:
						if pp.X == cur {
							cur = pp
							continue
						}
					case *ast.UnaryExpr:
						if pp.Op == token.AND {
							addr = true
							cur = pp
							continue
						}
					case *ast.CallExpr:
						if addr {
							if isAtomicCall(pp) {
								kind = "atomic"
							} else if len(pp.Args) == 1 && pp.Args[0] == cur {
								// conversion such as (*unsafe.Pointer)(unsafe.Pointer(&x.f))
								if tv, ok := p.TypesInfo.Types[pp.Fun]; ok && tv.IsType() {
									cur = pp
									continue
								}
								kind = "write" // address escapes into a non-atomic call
							} else {
								kind = "write"
							}
						}
					case *ast.AssignStmt:
						for _, l := range pp.Lhs {
							if l == cur {
								kind = "write"
							}
						}
						if addr && kind == "read" {
							kind = "write"
						}
					case *ast.IncDecStmt:
						kind = "write"
					default:
						if addr {
							kind = "write"
						}
					}
					break
				}
				return kind
			}
			ast.Inspect(f, func(n ast.Node) bool {
				switch x := n.(type) {
				case *ast.CompositeLit:
					t := p.TypesInfo.TypeOf(x)
					if pt, ok := t.(*types.Pointer); ok {
						t = pt.Elem()
					}
					nt, ok := t.(*types.Named)
					if !ok || nt.Obj().Pkg() == nil || !strings.HasPrefix(nt.Obj().Pkg().Path(), "go.linecorp.com/garr") {
						return true
					}
					for _, el := range x.Elts {
						if kv, ok := el.(*ast.KeyValueExpr); ok {
							if id, ok := kv.Key.(*ast.Ident); ok {
								out = append(out, acc{short, nt.Obj().Name(), id.Name, enclosing(x), "init"})
							}
						}
					}
				case *ast.CallExpr:
					// method call on a sync / sync/atomic object reached through a field or element
					if se, ok := x.Fun.(*ast.SelectorExpr); ok {
						if sel := p.TypesInfo.Selections[se]; sel != nil && sel.Kind() == types.MethodVal && syncType(sel.Recv()) {
							recv := types.ExprString(se.X)
							out = append(out, acc{short, "sync", recv, enclosing(x), "sync:" + se.Sel.Name})
						}
					}
				case *ast.Ident:
					// package-level variables of the library (not struct fields): immutable after initialisation unless declared otherwise
					v, ok := p.TypesInfo.Uses[x].(*types.Var)
					if !ok || v.IsField() || v.Pkg() == nil || !strings.HasPrefix(v.Pkg().Path(), "go.linecorp.com/garr") || v.Parent() != v.Pkg().Scope() {
						return true
					}
					if syncType(v.Type()) {
						return true
					}
					var node ast.Node = x
					if se, ok := parents[x].(*ast.SelectorExpr); ok && se.Sel == x {
						node = se // pkg.Var
					}
					vp := v.Pkg().Path()
					out = append(out, acc{vp[strings.LastIndex(vp, "/")+1:], "<pkgvar>", v.Name(), enclosing(x), classify(node)})
				case *ast.SelectorExpr:
					sel := p.TypesInfo.Selections[x]
					if sel == nil || sel.Kind() != types.FieldVal {
						return true
					}
					fld := sel.Obj().(*types.Var)
					if fld.Pkg() == nil || !strings.HasPrefix(fld.Pkg().Path(), "go.linecorp.com/garr") {
						return true
					}
					rt := sel.Recv()
					if pt, ok := rt.(*types.Pointer); ok {
						rt = pt.Elem()
					}
					tname := "?"
					if nt, ok := rt.(*types.Named); ok {
						tname = nt.Obj().Name()
					}
					if syncType(fld.Type()) {
						return true // accesses to the sync object itself are recorded as sync:<Method>
					}
					kind := classify(x)
					out = append(out, acc{short, tname, fld.Name(), enclosing(x), kind})
				}
				return true
			})
		}
	}
	// de-duplicate and sort
	seen := map[acc]bool{}
	var uniq []acc
	for _, a := range out {
		if !seen[a] {
			seen[a] = true
			uniq = append(uniq, a)
		}
	}
	sort.Slice(uniq, func(i, j int) bool {
		a, b := uniq[i], uniq[j]
		return a.pkg+"|"+a.typ+"|"+a.field+"|"+a.fn+"|"+a.kind < b.pkg+"|"+b.typ+"|"+b.field+"|"+b.fn+"|"+b.kind
	})
	fmt.Println("(* generated by tools/accesstab from the current /repo sources - do not edit *)")
	fmt.Println("From Coq Require Import String List.")
	fmt.Println("From Garr Require Import Race.Discipline.")
	fmt.Println("Import ListNotations.")
	fmt.Println("Open Scope string_scope.")
	fmt.Println("Definition access_table : list access := [")
	for i, a := range uniq {
		sep := ";"
		if i == len(uniq)-1 {
			sep = ""
		}
		fmt.Printf("  Acc %q %q %q %q %q%s\n", a.pkg, a.typ, a.field, a.fn, a.kind, sep)
	}
	fmt.Println("].")
}
