#!/bin/sh
# Builds the whole framework offline from files on disk: the Coq development
# (full .vo build), the extracted OCaml model runners and the Go harness.
set -e
cd "$(dirname "$0")"
export GOFLAGS=-mod=mod GOPROXY=off GOSUMDB=off GOTOOLCHAIN=local
mkdir -p build evidence replays
(cd coq && coq_makefile -f _CoqProject -o Makefile && timeout 3000 make -j16)
python3 - <<'PY'
import sys
sys.path.insert(0, ".")
from vcheck import registry
ok = True
for b in registry.BUILDERS:
    r = b()
    if not r[0]:
        ok = False
        print("build failed:", r[2][-2000:])
sys.exit(0 if ok else 1)
PY
echo setup done
