// race: stress workloads over every API garr documents as safe for concurrent
// use, to be built with `go build -race` against the CURRENT /repo (search aid
// of check C14: a data-race report is a concrete violation).
package main

import (
	"context"
	"flag"
	"fmt"
	"runtime"
	"strings"
	"sync"
	"sync/atomic"
	"time"

	"go.linecorp.com/garr/adder"
	cb "go.linecorp.com/garr/circuit-breaker"
	"go.linecorp.com/garr/queue"
	"go.linecorp.com/garr/retry"
	wp "go.linecorp.com/garr/worker-pool"
)

var rounds int64

func queueWork(deadline time.Time) {
	for time.Now().Before(deadline) {
		for _, ty := range []queue.Type{queue.JDKLinkedQueueType, queue.MutexLinkedQueueType} {
			q := queue.NewQueue(ty)
			var wg sync.WaitGroup
			for g := 0; g < 6; g++ {
				wg.Add(1)
				go func(g int) {
					defer wg.Done()
					for i := 0; i < 200; i++ {
						switch (g + i) % 6 {
						case 0, 1:
							q.Offer(int64(g*1000 + i + 1))
						case 2:
							q.Poll()
						case 3:
							q.Peek()
							q.IsEmpty()
						case 4:
							q.Size()
						case 5:
							if it := q.Iterator(); it != nil {
								n := 0
								for it.HasNext() && n < 50 {
									it.Next()
									if n%3 == 0 {
										it.Remove()
									}
									n++
								}
							}
						}
					}
				}(g)
			}
			wg.Wait()
			atomic.AddInt64(&rounds, 1)
		}
	}
}

func adderWork(deadline time.Time) {
	workers := runtime.GOMAXPROCS(0)
	if workers < 8 {
		workers = 8
	}
	for time.Now().Before(deadline) {
		// a fresh striped adder hammered from a common start: the table is created, attached to and
		// re-allocated (4->8, 16->32, 64->128) while other goroutines probe and attach
		for _, mk := range []func() (func(), func()){
			func() (func(), func()) { a := adder.NewLongAdder(adder.JDKAdderType); return func() { a.Add(1) }, func() { a.Sum() } },
			func() (func(), func()) { a := adder.NewFloat64Adder(adder.JDKF64AdderType); return func() { a.Add(1) }, func() { a.Sum() } },
		} {
			add, sum := mk()
			var start, done sync.WaitGroup
			start.Add(1)
			done.Add(workers)
			for w := 0; w < workers; w++ {
				go func() {
					defer done.Done()
					start.Wait()
					for i := 0; i < 400; i++ {
						add()
					}
				}()
			}
			start.Done()
			for i := 0; i < 4; i++ {
				sum()
				runtime.Gosched()
			}
			fin := make(chan struct{})
			go func() { done.Wait(); close(fin) }()
			select {
			case <-fin:
			case <-time.After(10 * time.Second):
				fmt.Println("HANG adder.Add never returned (adder wedged)")
				return
			}
			atomic.AddInt64(&rounds, 1)
		}
		for _, ty := range []adder.Type{adder.RandomCellAdderType, adder.AtomicAdderType, adder.MutexAdderType} {
			a := adder.NewLongAdder(ty)
			var wg sync.WaitGroup
			for g := 0; g < 8; g++ {
				wg.Add(1)
				go func(g int) {
					defer wg.Done()
					for i := 0; i < 200; i++ {
						a.Add(int64(i))
						if i%7 == 0 {
							a.Sum()
						}
						a.Inc()
						a.Dec()
					}
				}(g)
			}
			wg.Wait()
			atomic.AddInt64(&rounds, 1)
		}
		a := adder.NewFloat64Adder(adder.AtomicF64AdderType)
		var wg sync.WaitGroup
		for g := 0; g < 8; g++ {
			wg.Add(1)
			go func() {
				defer wg.Done()
				for i := 0; i < 200; i++ {
					a.Add(1)
					if i%5 == 0 {
						a.Sum()
					}
				}
			}()
		}
		wg.Wait()
		atomic.AddInt64(&rounds, 1)
	}
}

type tick struct{ t int64 }

func (k *tick) Tick() int64 { return atomic.AddInt64(&k.t, 3) }

type lst struct{ n int64 }

func (l *lst) OnStateChanged(cb.CircuitBreaker, cb.CircuitState) error { atomic.AddInt64(&l.n, 1); return nil }
func (l *lst) OnEventCountUpdated(cb.CircuitBreaker, *cb.EventCount) error {
	atomic.AddInt64(&l.n, 1)
	return nil
}
func (l *lst) OnRequestRejected(cb.CircuitBreaker) error { atomic.AddInt64(&l.n, 1); return nil }
func (l *lst) Stop()                                      {}

func breakerWork(deadline time.Time) {
	for time.Now().Before(deadline) {
		tk := &tick{}
		bld := cb.NewCircuitBreakerBuilder().SetTicker(tk).SetFailureRateThreshold(0.3).SetMinimumRequestThreshold(2).
			SetTrialRequestInterval(7).SetCircuitOpenWindow(20).SetCounterSlidingWindow(40).SetCounterUpdateInterval(5).
			AddListener(&lst{}).AddListener(&lst{})
		br, err := bld.Build()
		if err != nil {
			panic(err)
		}
		var wg sync.WaitGroup
		// the builder stays with this goroutine and goes on building (and being reconfigured) while the breaker it
		// built is in use elsewhere: what Build handed out must not be touched again
		wg.Add(1)
		go func() {
			defer wg.Done()
			for i := 0; i < 40; i++ {
				b2, err := bld.Build()
				if err != nil {
					panic(err)
				}
				b2.CanRequest()
				b2.OnFailure()
				if i%8 == 7 {
					bld.AddListener(&lst{})
				}
				runtime.Gosched()
			}
		}()
		for g := 0; g < 8; g++ {
			wg.Add(1)
			go func(g int) {
				defer wg.Done()
				for i := 0; i < 300; i++ {
					if br.CanRequest() {
						if (g+i)%3 == 0 {
							br.OnSuccess()
						} else {
							br.OnFailure()
						}
					}
				}
			}(g)
		}
		wg.Wait()
		w, _ := cb.NewSlidingWindowCounter(tk, 40, 5)
		for g := 0; g < 6; g++ {
			wg.Add(1)
			go func(g int) {
				defer wg.Done()
				for i := 0; i < 200; i++ {
					if (g+i)%2 == 0 {
						w.OnSuccess()
					} else {
						w.OnFailure()
					}
					w.Count()
				}
			}(g)
		}
		wg.Wait()
		atomic.AddInt64(&rounds, 1)
	}
}

func poolWork(deadline time.Time) {
	for time.Now().Before(deadline) {
		for _, opt := range []wp.Option{{NumberWorker: 1, ExpandableLimit: 3, ExpandedLifetime: 200 * time.Microsecond}, {NumberWorker: 2}, {NumberWorker: 1, ExpandableLimit: 1, ExpandedLifetime: time.Millisecond, DisableAutoStart: true}} {
			p := wp.NewPool(context.Background(), opt)
			var wg sync.WaitGroup
			for g := 0; g < 6; g++ {
				wg.Add(1)
				go func(g int) {
					defer wg.Done()
					for i := 0; i < 40; i++ {
						if g == 5 && i == 20 {
							p.Start()
						}
						var t *wp.Task
						ok := true
						if i%3 == 0 {
							t, ok = p.TryExecute(func(context.Context) (interface{}, error) { return i, nil })
						} else {
							ctx, cancel := context.WithCancel(context.Background())
							t = wp.NewTask(ctx, func(context.Context) (interface{}, error) { runtime.Gosched(); return i, nil })
							if i%11 == 0 {
								cancel()
							}
							if opt.DisableAutoStart && i < 20 {
								ok = p.TryDo(t)
							} else {
								p.Do(t)
							}
							defer cancel()
						}
						if ok && !(opt.DisableAutoStart && i < 20) {
							<-t.Result()
						}
					}
				}(g)
			}
			wg.Wait()
			p.Stop()
			p.Stop()
			atomic.AddInt64(&rounds, 1)
		}
	}
}

func retryWork(deadline time.Time) {
	for time.Now().Before(deadline) {
		rb := retry.NewBackoffBuilder().BaseBackoffSpec("exponential=10:1000:1.5").WithLimit(20).WithJitter(0.2)
		b, err := rb.Build()
		if err != nil {
			panic(err)
		}
		var wg sync.WaitGroup
		// the builder goes on (more layers, more Builds) on its own goroutine while the policy it built is shared
		wg.Add(1)
		go func() {
			defer wg.Done()
			for i := 0; i < 20; i++ {
				if b2, err := rb.WithJitter(0.1).Build(); err == nil {
					b2.NextDelayMillis(1 + i%5)
				}
				runtime.Gosched()
			}
		}()
		for g := 0; g < 6; g++ {
			wg.Add(1)
			go func() {
				defer wg.Done()
				for i := 1; i < 200; i++ {
					b.NextDelayMillis(i % 25)
				}
			}()
		}
		wg.Wait()
		atomic.AddInt64(&rounds, 1)
	}
}

func main() {
	secs := flag.Int("secs", 10, "seconds to run")
	focus := flag.String("focus", "", "comma-separated packages to concentrate on (adder,queue,circuit-breaker,worker-pool,retry)")
	flag.Parse()
	deadline := time.Now().Add(time.Duration(*secs) * time.Second)
	var wg sync.WaitGroup
	work := []func(time.Time){queueWork, adderWork, adderWork, breakerWork, poolWork, retryWork}
	if *focus != "" {
		by := map[string]func(time.Time){"queue": queueWork, "adder": adderWork, "circuit-breaker": breakerWork, "worker-pool": poolWork, "retry": retryWork}
		work = nil
		for _, name := range strings.Split(*focus, ",") {
			if f, ok := by[name]; ok {
				for i := 0; i < 4; i++ {
					work = append(work, f)
				}
			}
		}
	}
	for _, f := range work {
		wg.Add(1)
		go func(f func(time.Time)) { defer wg.Done(); f(deadline) }(f)
	}
	wg.Wait()
	fmt.Printf("ROUNDS %d\n", atomic.LoadInt64(&rounds))
}
