module verif/harness_race

go 1.23.5

require (
	github.com/valyala/fastrand v1.1.0
	go.linecorp.com/garr v0.0.0
)

replace go.linecorp.com/garr => /repo
